(* The four numeric regular expressions of lexer.py as hand-specialised matchers, with Python's
   backtracking priorities made explicit.  Written from the PARSE TREES of the compiled
   patterns (Gen.LexTables.*_tree; the expected trees are pinned in Proofs/LexTies.v by
   reflexivity) and validated against `re` itself by the correspondence harness.
   Each matcher returns the three named groups as strings; `match.end()` is the sum of their
   lengths.  uw / ud : Python's Unicode-aware \w and \d on code points >= 128. *)
From NV Require Import Model.Base.

Section NumRe.
  Variable uw ud : N -> bool.

  Definition ascii_digit (c : N) : bool := ((48 <=? c) && (c <=? 57))%N.
  Definition ascii_alpha (c : N) : bool := ((65 <=? c) && (c <=? 90) || (97 <=? c) && (c <=? 122))%N.
  Definition isd (c : N) : bool := if (c <? 128)%N then ascii_digit c else ud c.                 (* \d *)
  Definition isw (c : N) : bool :=                                                               (* \w *)
    if (c <? 128)%N then ascii_digit c || ascii_alpha c || N.eqb c 95 else uw c || ud c.
  Definition ishex (c : N) : bool :=                                                             (* [\da-fA-F] *)
    isd c || ((97 <=? c) && (c <=? 102))%N || ((65 <=? c) && (c <=? 70))%N.
  Definition in_set (set : str) (c : N) : bool := existsb (N.eqb c) set.

  Fixpoint span (p : N -> bool) (l : str) : str * str :=
    match l with
    | [] => ([], [])
    | a :: r => if p a then let (x, y) := span p r in (a :: x, y) else ([], l)
    end.

  Definition nonnil (x : str) : bool := match x with [] => false | _ => true end.

  (* ---------------------------------------------------------------- INT_LITERAL_PATTERN *)
  (* Constant under a given prefix: hex digits if the prefix is exactly 0x / 0X, else \d+ *)
  Definition int_const (hexok : bool) (r : str) : option (str * str) :=
    let (h, r1) := span ishex r in
    if hexok && nonnil h then Some (h, r1)
    else let (d, r2) := span isd r in if nonnil d then Some (d, r2) else None.

  Definition hexok_of (ptail : str) : bool :=
    match ptail with [x] => in_set [120; 88]%N x | _ => false end.

  (* Prefix = '0' ++ firstn i bx, tried for i = |bx|, |bx|-1, .., 0 (greedy [bBxX]*, backtracking) *)
  Fixpoint int_prefixes (bx after : str) (i : nat) : option (str * str * str) :=
    let pt := firstn i bx in
    match int_const (hexok_of pt) (skipn i bx ++ after) with
    | Some (c, r) => Some (pt, c, r)
    | None => match i with O => None | S j => int_prefixes bx after j end
    end.

  Definition last_chr (x : str) : option N := match rev x with c :: _ => Some c | [] => None end.

  Definition int_suffix (const r : str) : str :=
    match last_chr const with
    | Some c =>
        if in_set [101; 69]%N c then fst (span (fun ch => isw ch || in_set [43; 45; 46]%N ch) r)
        else match r with
             | a :: r' => if isw a then a :: fst (span (fun ch => isw ch || N.eqb ch 46) r') else []
             | [] => []
             end
    | None => []
    end.

  (* Prefix group:  0[xX](?=[\da-fA-F])  |  0[bBxX]*  |  <empty>.
     First alternative (added with the repair of K1): `0x` / `0X` directly followed by a hexadecimal digit (look-ahead,
     not consumed).  Its continuation cannot fail: the look-behind (?<=0[xX]) of the Constant group holds, [\da-fA-F]+
     matches at least the digit the look-ahead saw, and the Suffix group has an empty alternative - so the matcher never
     backtracks out of it.  The old alternatives follow for the inputs where the look-ahead fails (0x, 0xx1, 0bb1, 0xg). *)
  (* the alternatives  0[bBxX]*  |  <empty>  of the Prefix group (the whole pattern before the repair of K1) *)
  Definition int_match_old (x : str) : option (str * str * str) :=
    let plain := match int_const false x with
                 | Some (c, r) => Some ([], c, int_suffix c r)
                 | None => None
                 end in
    match x with
    | 48%N :: t =>
        let (bx, after) := span (in_set [98; 66; 120; 88]%N) t in
        match int_prefixes bx after (List.length bx) with
        | Some (pt, c, r) => Some (48%N :: pt, c, int_suffix c r)
        | None => plain
        end
    | _ => plain
    end.

  (* the look-ahead of the first alternative: 0, then x/X, then a hexadecimal digit *)
  Definition hex_start (x : str) : bool :=
    match x with
    | a :: r => N.eqb a 48 && match r with
                              | xc :: r2 => in_set [120; 88]%N xc && match r2 with h :: _ => ishex h | [] => false end
                              | [] => false
                              end
    | [] => false
    end.
  (* (each test looks only at the character it needs, so that the matcher can be evaluated on a text with an unknown tail) *)

  Definition int_match (x : str) : option (str * str * str) :=
    if hex_start x then
      let (c, r) := span ishex (skipn 2 x) in Some (firstn 2 x, c, int_suffix c r)
    else int_match_old x.

  (* ---------------------------------------------------------------- the Exponent group *)
  (* alternative 3:  (?:[E][+-]?(?:[.D]+)?)+   (hex pattern: one of `.[` or a hex digit, then `]`+) *)
  Fixpoint exp_alt3 (fuel : nat) (E : str) (digit : N -> bool) (quirk : bool) (r : str) : str * str :=
    match fuel with
    | O => ([], r)
    | S f =>
        match r with
        | e :: r1 =>
            if in_set E e then
              let (sg, r2) := match r1 with
                              | c :: r' => if in_set [43; 45]%N c then ([c], r') else ([], r1)
                              | [] => ([], r1)
                              end in
              let (body, r3) :=
                if quirk then
                  match r2 with
                  | c :: r' =>
                      if N.eqb c 46 || N.eqb c 91 || digit c then
                        let (br, r'') := span (N.eqb 93) r' in
                        if nonnil br then (c :: br, r'') else ([], r2)
                      else ([], r2)
                  | [] => ([], r2)
                  end
                else span (fun c => N.eqb c 46 || digit c) r2 in
              let (more, r4) := exp_alt3 f E digit quirk r3 in
              (e :: sg ++ body ++ more, r4)
            else ([], r)
        | [] => ([], r)
        end
    end.

  (* None when the text does not start with a character of E (the three alternatives fail) *)
  Definition exp_match (E : str) (digit : N -> bool) (quirk : bool) (r : str) : option (str * str) :=
    match r with
    | e :: _ =>
        if in_set E e then
          let (es, r1) := span (in_set E) r in
          let alt1 := match r1 with
                      | c :: r' => if in_set [43; 45]%N c then
                                     let (d, r'') := span digit r' in
                                     if nonnil d then Some (es ++ c :: d, r'') else None
                                   else None
                      | [] => None
                      end in
          match alt1 with
          | Some g => Some g
          | None =>
              let (d, r2) := span digit r1 in
              if nonnil d then Some (es ++ d, r2)
              else Some (exp_alt3 (S (List.length r)) E digit quirk r)
          end
        else None
    | [] => None
    end.

  Definition suffix_run (r : str) : str := fst (span (fun c => isw c || N.eqb c 46 || N.eqb c 95) r).

  (* FLOAT_EXPONENT_LITERAL_PATTERN:  \d+ <exponent> <suffix> *)
  Definition fexp_match (x : str) : option (str * str * str) :=
    let (c, r) := span isd x in
    if nonnil c then
      match exp_match [101; 69]%N isd false r with
      | Some (e, r') => Some (c, e, suffix_run r')
      | None => None
      end
    else None.

  (* FLOAT_FRACTIONAL_LITERAL_PATTERN:  ((?:\d+)?\.\d+|\d+\.) <exponent>? <suffix> *)
  Definition ffrac_match (x : str) : option (str * str * str) :=
    let (d, r) := span isd x in
    match r with
    | 46%N :: r1 =>
        let (f, r2) := span isd r1 in
        let cr := if nonnil f then Some (d ++ 46%N :: f, r2)
                  else if nonnil d then Some (d ++ [46%N], r1) else None in
        match cr with
        | Some (c, r3) =>
            match exp_match [101; 69]%N isd false r3 with
            | Some (e, r4) => Some (c, e, suffix_run r4)
            | None => Some (c, [], suffix_run r3)
            end
        | None => None
        end
    | _ => None
    end.

  (* FLOAT_HEXADECIMAL_LITERAL_PATTERN:  0 [xX]+ ( H+ ( . H* )?  |  . H+ ) <exponent>? <suffix>      (H = [\da-fA-F])
     (after the repair of the findings hexfloat-empty-part / hexfloat-hex-suffix: the fraction may be empty after digits, the
     integer part may be empty before a non-empty fraction, and the exponent digits are DECIMAL - the exponent group is the
     one of the decimal patterns with pP, so the `[.[0-9a-fA-F]]+` quirk of its third alternative is gone; `exp_alt3` keeps
     its quirk argument, which no matcher sets any more).  [xX]+ is greedy; x/X are neither hexadecimal digits nor a dot, so
     giving one back never helps; Exponent is optional and Suffix may be empty, so nothing after the constant backtracks. *)
  Definition fhex_match (x : str) : option (str * str * str) :=
    match x with
    | 48%N :: t =>
        let (xs, r) := span (in_set [120; 88]%N) t in
        if nonnil xs then
          let (h, r1) := span ishex r in
          let cr : option (str * str) :=
            if nonnil h then
              match r1 with
              | 46%N :: r2 => let (f, r2') := span ishex r2 in Some (48%N :: xs ++ h ++ 46%N :: f, r2')
              | _ => Some (48%N :: xs ++ h, r1)
              end
            else
              match r1 with
              | 46%N :: r2 => let (f, r2') := span ishex r2 in if nonnil f then Some (48%N :: xs ++ 46%N :: f, r2') else None
              | _ => None
              end in
          match cr with
          | Some (c, r3) =>
              match exp_match [112; 80]%N isd false r3 with
              | Some (e, r4) => Some (c, e, suffix_run r4)
              | None => Some (c, [], suffix_run r3)
              end
          | None => None
          end
        else None
    | _ => None
    end.

  (* re.match(r"[E][-+]?\d+", Exponent) is not None, E = eE (decimal floats) or pP (hexadecimal floats) *)
  Definition exp_ok_in (E : str) (e : str) : bool :=
    match e with
    | c :: r =>
        in_set E c &&
        match r with
        | sg :: r' => if in_set [45; 43]%N sg then match r' with d :: _ => isd d | [] => false end else isd sg
        | [] => false
        end
    | [] => false
    end.
  Definition exp_ok (e : str) : bool := exp_ok_in [101; 69]%N e.
End NumRe.
