(* State and events of the CheckHeader state machine (rules/check_header.py), the vocabulary the
   generated Gen/HeaderSM.v is written in.
   CheckHeader is a Check without depends_on: Registry.run_rules calls its `run` once after every
   primary rule that recognised a statement (dependencies["_rule"]), before the statement's tokens are
   popped.  What `run` can see of that moment is an event: the name of the primary rule just appended
   to context.history and the first token of the statement (context.peek_token(0)). *)
From NV Require Import Model.Base.

Record hstate := mkhs {
  hs_started : bool;      (* context.header_started *)
  hs_parsed : bool;       (* context.header_parsed *)
  hs_header : str;        (* context.header *)
  hs_errs : list str      (* codes given to context.new_error by CheckHeader, in order *)
}.

Record hevent := mkev {
  ev_rule : str;          (* context.history[-1] (Rule.__eq__ with a str compares the class name) *)
  ev_tok_type : str;      (* context.peek_token(0).type *)
  ev_tok_value : str      (* context.peek_token(0).value *)
}.

Definition set_started (b : bool) (st : hstate) : hstate :=
  mkhs b (hs_parsed st) (hs_header st) (hs_errs st).
Definition set_parsed (b : bool) (st : hstate) : hstate :=
  mkhs (hs_started st) b (hs_header st) (hs_errs st).
Definition set_header (h : str) (st : hstate) : hstate :=
  mkhs (hs_started st) (hs_parsed st) h (hs_errs st).
Definition emit (code : str) (st : hstate) : hstate :=
  mkhs (hs_started st) (hs_parsed st) (hs_header st) (hs_errs st ++ [code]).

(* context.check_token(0, ty): three-valued in general (None past the end); a statement always has a
   first token *)
Definition check_token0 (ev : hevent) (ty : str) : option bool := Some (str_eqb (ev_tok_type ev) ty).
Definition is_True (o : option bool) : bool := match o with Some true => true | _ => false end.
Definition is_False (o : option bool) : bool := match o with Some false => true | _ => false end.
Definition is_None (o : option bool) : bool := match o with None => true | _ => false end.

Definition count_code (code : str) (st : hstate) : nat :=
  List.length (filter (str_eqb code) (hs_errs st)).
