(* The standard 42 header as the stdheader plugin builds it (DESIGN 4.13), its structural mutations
   Hm1..Hm8, and the run of the generated CheckHeader state machine (Gen/HeaderSM.v) over a sequence of
   statement events.  Definitions only. *)
From NV Require Import Model.Base Model.HeaderRe Model.HeaderState Gen.HeaderRe Gen.HeaderSM.

(* ---------------------------------------------------------------- the stdheader template *)
Definition sp (n : nat) : str := repeat 32%N n.
Definition stars (n : nat) : str := repeat 42%N n.

(* stdheader.vim s:textline(left, right): length 80, margin 5, left truncated to what fits *)
Definition trunc (l r : str) : str := firstn (70 - List.length r) l.
Definition mid_of (l r : str) : str :=
  sp 3 ++ trunc l r ++ sp (70 - List.length (trunc l r) - List.length r) ++ r ++ sp 3.
Definition comment_of (m : str) : str := s "/*" ++ m ++ s "*/".
Definition textline (l r : str) : str := comment_of (mid_of l r).

Definition frame_mid (n : nat) : str := 32%N :: stars n ++ [32%N].
Definition frame_n (n : nat) : str := comment_of (frame_mid n).
Definition frame_line : str := frame_n 74.

Definition art3 : str := s "        :::      ::::::::".
Definition art4 : str := s "      :+:      :+:    :+:".
Definition art5 : str := s "    +:+ +:+         +:+  ".
Definition art6 : str := s "  +#+  +:+       +#+     ".
Definition art7 : str := s "+#+#+#+#+#+   +#+        ".
Definition art8 : str := s "     #+#    #+#          ".
Definition art9 : str := s "    ###   ########.fr    ".

Record fields := mkfields {
  f_file : str;                      (* file name *)
  f_user : str; f_mail : str;        (* By: user <mail> *)
  f_cdate : str; f_ctime : str; f_cuser : str;     (* Created: date time by user *)
  f_udate : str; f_utime : str; f_uuser : str      (* Updated: date time by user *)
}.

Definition by_text (f : fields) : str := s "By: " ++ f_user f ++ s " <" ++ f_mail f ++ s ">".
Definition created_text (f : fields) : str :=
  s "Created: " ++ f_cdate f ++ s " " ++ f_ctime f ++ s " by " ++ f_cuser f.
Definition updated_text (f : fields) : str :=
  s "Updated: " ++ f_udate f ++ s " " ++ f_utime f ++ s " by " ++ f_uuser f.

(* the 76 characters between the comment delimiters, line by line *)
Definition template_mids (f : fields) : list str :=
  [frame_mid 74; mid_of [] []; mid_of [] art3; mid_of (f_file f) art4; mid_of [] art5;
   mid_of (by_text f) art6; mid_of [] art7; mid_of (created_text f) art8; mid_of (updated_text f) art9;
   mid_of [] []; frame_mid 74].
Definition template (f : fields) : list str := map comment_of (template_mids f).

(* ---------------------------------------------------------------- conditions on the field values *)
Definition no_char (c : N) (x : str) : bool := forallb (fun d => negb (N.eqb d c)) x.
(* can stand inside a one-line block comment: no newline, no `*` *)
Definition plain (x : str) : bool := no_char 10 x && no_char 42 x.

(* date and time are single words, and short enough for " by " to survive the truncation to 45 columns
   (the plugin's own stamp has 10 + 8 characters) *)
Definition stamps_ok (f : fields) : bool :=
  no_char 32 (f_cdate f) && no_char 32 (f_ctime f) && no_char 32 (f_udate f) && no_char 32 (f_utime f) &&
  Nat.leb (List.length (f_cdate f) + List.length (f_ctime f)) 31 &&
  Nat.leb (List.length (f_udate f) + List.length (f_utime f)) 31.

Definition fields_plain (f : fields) : bool :=
  plain (f_file f) && plain (f_user f) && plain (f_mail f) &&
  plain (f_cdate f) && plain (f_ctime f) && plain (f_cuser f) &&
  plain (f_udate f) && plain (f_utime f) && plain (f_uuser f).

(* the lexer stores a tab inside a comment as blanks (Lexer.pop, use_spaces): a tab in a date or time would
   become a blank of the text the expression sees *)
Definition stamps_no_tab (f : fields) : bool :=
  no_char 9 (f_cdate f) && no_char 9 (f_ctime f) && no_char 9 (f_udate f) && no_char 9 (f_utime f).

Definition fields_ok (f : fields) : bool := stamps_ok f && fields_plain f && stamps_no_tab f.

Definition hud_fields : fields :=
  mkfields (s "hud.c") (s "vgauther") (s "vgauther@student.42.fr")
           (s "2018/03/29") (s "13:47:14") (s "vgauther") (s "2018/05/02") (s "21:16:08") (s "vgauther").

(* ---------------------------------------------------------------- events and the run *)
Definition IsComment : str := s "IsComment".
Definition MULT_COMMENT : str := s "MULT_COMMENT".
Definition INVALID_HEADER : str := s "INVALID_HEADER".

Definition is_comment_ev (ev : hevent) : bool := str_eqb (ev_rule ev) IsComment.
(* a comment statement whose first token is the block comment itself (it starts in column 1) *)
Definition is_block_ev (ev : hevent) : bool :=
  is_comment_ev ev && str_eqb (ev_tok_type ev) MULT_COMMENT.

(* the statement made of one block comment `l` alone on its line(s) *)
Definition comment_event (l : str) : hevent := mkev IsComment MULT_COMMENT l.
(* a // comment *)
Definition line_comment_event (l : str) : hevent := mkev IsComment (s "COMMENT") (s "//" ++ l).

Definition run_from (st : hstate) (evs : list hevent) : hstate := fold_left run_step evs st.
Definition run_events (evs : list hevent) : hstate := run_from ctx_init evs.
Definition invalid_count (evs : list hevent) : nat := count_code INVALID_HEADER (run_events evs).

(* context.header after the leading comments: every comment text followed by a newline *)
Definition lines_text (ls : list str) : str := List.concat (map (fun l => l ++ [10%N]) ls).

Definition header_events (f : fields) : list hevent := map comment_event (template f).

(* ---------------------------------------------------------------- the mutations of DESIGN 4.13 *)
Fixpoint remove_nth {A} (k : nat) (l : list A) : list A :=
  match l, k with
  | [], _ => []
  | _ :: r, O => r
  | a :: r, S k' => a :: remove_nth k' r
  end.
Fixpoint replace_nth {A} (k : nat) (x : A) (l : list A) : list A :=
  match l, k with
  | [], _ => []
  | _ :: r, O => x :: r
  | a :: r, S k' => a :: replace_nth k' x r
  end.

(* Hm4: every line written as a // comment *)
Definition hm4_events (f : fields) : list hevent := map line_comment_event (template_mids f).

(* Hm4, one line only: line k (0-based) written as a // comment, the other lines unchanged *)
Definition hm4k_events (k : nat) (f : fields) : list hevent :=
  (map comment_event (firstn k (template f)) ++ [line_comment_event (nth k (template_mids f) [])]) ++
  map comment_event (skipn (S k) (template f)).

(* Hm5: one block comment: the inner delimiters replaced by `**` *)
Fixpoint join (sep : str) (ls : list str) : str :=
  match ls with
  | [] => []
  | [a] => a
  | a :: r => a ++ sep ++ join sep r
  end.
Definition block_sep : str := s "**" ++ [10%N] ++ s "**".
Definition hm5_text (f : fields) : str := comment_of (join block_sep (template_mids f)).
Definition hm5_events (f : fields) : list hevent := [comment_event (hm5_text f)].

(* Hm6: line k (0-based) removed *)
Definition hm6_lines (k : nat) (f : fields) : list str := remove_nth k (template f).
(* Hm7: the first (last = false) or last (last = true) frame line with n stars *)
Definition hm7_lines (last : bool) (n : nat) (f : fields) : list str :=
  replace_nth (if last then 10 else 0)%nat (frame_n n) (template f).
(* Hm8: the text of the By / Created / Updated line (k = 5, 7, 8, 0-based) replaced by x *)
Definition art_of (k : nat) : str :=
  match k with 5%nat => art6 | 7%nat => art8 | 8%nat => art9 | _ => [] end.
Definition keyword_of (k : nat) : str :=
  match k with 5%nat => s "/*   By: " | 7%nat => s "/*   Created: " | 8%nat => s "/*   Updated: " | _ => [] end.
Definition hm8_lines (k : nat) (x : str) (f : fields) : list str :=
  replace_nth k (textline x (art_of k)) (template f).

(* ---------------------------------------------------------------- for the correspondence run *)
(* encodings used by the cases files written by tools/harness/c13.py *)
Definition b2z (b : bool) : Z := if b then 1 else 0.
Definition state_code (st : hstate) : list Z :=
  [b2z (hs_started st); b2z (hs_parsed st); zlen (hs_header st); Z.of_nat (count_code INVALID_HEADER st);
   zlen (hs_errs st)].
(* the states after each event *)
Fixpoint trace_from (st : hstate) (evs : list hevent) : list (list Z) :=
  match evs with
  | [] => []
  | ev :: r => let st' := run_step st ev in state_code st' :: trace_from st' r
  end.
Definition zs (l : list Z) : str := map Z.to_N l.
