(* C17 / C18: what the analysed path can observe of a token's SPELLING.
   `form` is the closed vocabulary in which tools/translate_values.py describes every syntactic read of
   `.value` / `.length` / `str(token)` ... in the rules (Gen/ValueReads.v); `eval_obs` is its semantics on a
   spelling; `rename_ok` / `replace_ok` are the admissible edits of the two properties as booleans.
   Definitions only; the theorems are in Proofs/ObsProofs.v.
   ASCII only: identifiers are [A-Za-z0-9_] (Model/Lexer.v is_ident_char), so str.upper / str.lower / str.isupper
   are the ASCII functions on them. *)
From NV Require Export Model.Base Gen.Dict Gen.LexTables.
From Coq Require Export String.

Local Open Scope N_scope.

(* ------------------------------------------------------------------ the vocabulary *)
Inductive form :=
| FLen                                  (* len(v), token.length, len(pad + v) *)
| FLenStr                               (* len(str(token)) *)
| FTruthy                               (* `if self.value` *)
| FIsNone                               (* `self.value is None` *)
| FTokenStr                             (* Token.__str__ builds "<TYPE=v>"; its uses are FLenStr / FFatalMessage / FDebugPrint entries *)
| FEqLit (l : str)                      (* v == l, v != l *)
| FInLits (ls : list str)               (* v in (l1, ...) *)
| FStartsWith (p : str)
| FEndsWith (p : str)
| FIsUpper
| FIsLower
| FCharsNotIn (set : str) (brk : bool)  (* for c in v: if c not in set: <report> [break] : how often it fires *)
| FCharsIn (set : str) (brk : bool)
| FContains (l : str)                   (* l in v *)
| FUpper (f : form)                     (* f applied to v.upper() *)
| FLower (f : form)
| FStrip (chars : option str) (f : form)
| FSplitExt (ext : bool) (f : form)     (* os.path.splitext(v)[0 / 1] *)
| FSplitLens (sep : str)                (* [len(x) for x in v.split(sep)] (first piece possibly padded) *)
| FEqOther                              (* v == the spelling of another token / a stored spelling *)
| FEqFileDerived                        (* v == a name computed from the file name (the guard symbol) *)
| FDispatch (names : list str)          (* getattr(self, prefix + v): which method *)
| FStore (place : string)               (* kept in the state; every read of that place is an entry of its own *)
| FHeaderRegex                          (* regex.search(context.header) *)
| FFatalMessage                         (* text of a CParsingError: the file is not analysable, no diagnostics *)
| FDebugPrint.                          (* print(...) under --debug: stdout, not a diagnostic *)

Inductive obs := OB (b : bool) | ON (n : nat) | OL (l : list nat) | OI (i : option nat) | OU.

(* ------------------------------------------------------------------ characters, ASCII case *)
Definition is_lower (c : N) : bool := (97 <=? c) && (c <=? 122).
Definition is_upper (c : N) : bool := (65 <=? c) && (c <=? 90).
Definition is_digit (c : N) : bool := (48 <=? c) && (c <=? 57).
Definition ident_char (c : N) : bool := is_lower c || is_upper c || is_digit c || (c =? 95).
Definition ident_ok (v : str) : bool :=
  match v with [] => false | c :: _ => negb (is_digit c) && forallb ident_char v end.

Definition upper_c (c : N) : N := if is_lower c then c - 32 else c.
Definition lower_c (c : N) : N := if is_upper c then c + 32 else c.
Definition upper (v : str) : str := List.map upper_c v.
Definition lower (v : str) : str := List.map lower_c v.

Definition py_isupper (v : str) : bool := existsb is_upper v && negb (existsb is_lower v).
Definition py_islower (v : str) : bool := existsb is_lower v && negb (existsb is_upper v).

Definition count_notin (set v : str) : nat := List.length (filter (fun c => negb (chr_in c set)) v).
Definition count_in (set v : str) : nat := List.length (filter (fun c => chr_in c set) v).
Definition fires (brk : bool) (n : nat) : nat := if brk then Nat.min 1%nat n else n.

Fixpoint substr (x y : str) : bool :=
  starts_with x y || match y with [] => false | _ :: y' => substr x y' end.

Fixpoint lstrip_c (set : str) (x : str) : str :=
  match x with a :: r => if chr_in a set then lstrip_c set r else x | [] => [] end.
Definition strip_c (set : str) (x : str) : str := rev (lstrip_c set (rev (lstrip_c set x))).
Definition py_ws : str := [32; 9; 10; 13; 11; 12].

(* lengths of the pieces of v.split(c) *)
Fixpoint split_lens_aux (c : N) (cur : nat) (v : str) : list nat :=
  match v with
  | [] => [cur]
  | a :: r => if a =? c then cur :: split_lens_aux c 0%nat r else split_lens_aux c (S cur) r
  end.
Definition split_lens (c : N) (v : str) : list nat := split_lens_aux c 0%nat v.

Fixpoint index_of (v : str) (ls : list str) (k : nat) : option nat :=
  match ls with [] => None | l :: r => if str_eqb v l then Some k else index_of v r (S k) end.

(* os.path.splitext on a plain file name (no directory part): the extension starts at the last dot that is
   preceded by a non-dot character.  Only ever applied to the argument of #include, which both properties exclude. *)
Fixpoint last_dot (v : str) (i : nat) (seen_nondot : bool) (best : option nat) : option nat :=
  match v with
  | [] => best
  | a :: r => if a =? 46 then last_dot r (S i) seen_nondot (if seen_nondot then Some i else best)
              else last_dot r (S i) true best
  end.
Definition splitext (v : str) : str * str :=
  match last_dot v 0%nat false None with Some i => (firstn i v, skipn i v) | None => (v, []) end.

(* ------------------------------------------------------------------ semantics *)
Fixpoint eval_obs (guard other : str) (f : form) (v : str) : obs :=
  match f with
  | FLen | FLenStr => ON (List.length v)
  | FTruthy => OB (match v with [] => false | _ => true end)
  | FIsNone => OB false
  | FEqLit l => OB (str_eqb v l)
  | FInLits ls => OB (str_in v ls)
  | FStartsWith p => OB (starts_with p v)
  | FEndsWith p => OB (ends_with p v)
  | FIsUpper => OB (py_isupper v)
  | FIsLower => OB (py_islower v)
  | FCharsNotIn set brk => ON (fires brk (count_notin set v))
  | FCharsIn set brk => ON (fires brk (count_in set v))
  | FContains l => OB (substr l v)
  | FUpper g => eval_obs guard other g (upper v)
  | FLower g => eval_obs guard other g (lower v)
  | FStrip cs g => eval_obs guard other g (strip_c (match cs with Some c => c | None => py_ws end) v)
  | FSplitExt e g => eval_obs guard other g (if e then snd (splitext v) else fst (splitext v))
  | FSplitLens sep => match sep with [c] => OL (split_lens c v) | _ => OU end
  | FEqOther => OB (str_eqb v other)
  | FEqFileDerived => OB (str_eqb v guard)
  | FDispatch names => OI (index_of v names 0%nat)
  | FTokenStr | FStore _ | FHeaderRegex | FFatalMessage | FDebugPrint => OU
  end.

(* ------------------------------------------------------------------ C18: admissible renamings *)
Definition legal_chars : str := s "abcdefghijklmnopqrstuvwxyz0123456789_".
Definition lower_chars : str := s "abcdefghijklmnopqrstuvwxyz".
Definition prefixes5 : list str := [s "g_"; s "s_"; s "t_"; s "u_"; s "e_"].

(* the names the tool treats specially, lower-cased (REVIEWED; Proofs/ObsProofs.special_literals_reviewed ties it
   to the literals found in the source today) *)
Definition reviewed_specials : list str :=
  [s "__attribute__"; s "environ"; s "defined"; s "include"; s "import"; s "define"; s "undef"; s "if"; s "ifdef";
   s "ifndef"; s "elif"; s "else"; s "endif"; s "error"; s "warning"; s "pragma"; s "h"; s ".h"].
Definition lit_special (l : str) : bool := str_in (lower l) reviewed_specials.
Definition is_special (v : str) : bool := str_in (lower v) reviewed_specials.
(* REVIEWED: the spellings the lexer turns into keyword tokens (C keywords + NULL); ObsProofs.keywords_reviewed ties it
   to Gen.Dict.keywords: a keyword added to the dictionary breaks that theorem (a user name became a keyword) *)
Definition reviewed_keywords : list str :=
  [s "auto"; s "break"; s "case"; s "char"; s "const"; s "continue"; s "default"; s "do"; s "double"; s "else"; s "enum";
   s "extern"; s "float"; s "for"; s "goto"; s "if"; s "int"; s "long"; s "register"; s "return"; s "short"; s "signed";
   s "sizeof"; s "static"; s "struct"; s "switch"; s "typedef"; s "union"; s "unsigned"; s "void"; s "volatile"; s "while";
   s "inline"; s "NULL"; s "restrict"].
Definition is_keyword (v : str) : bool := match assoc v keywords with Some _ => true | None => false end.

(* the naming class: what the naming rules can see of a name *)
Definition same_class (a b : str) : bool :=
  Nat.eqb (List.length a) (List.length b)
  && Nat.eqb (count_notin legal_chars a) (count_notin legal_chars b)
  && Nat.eqb (Nat.min 1%nat (count_in lower_chars a)) (Nat.min 1%nat (count_in lower_chars b))
  && Bool.eqb (py_isupper a) (py_isupper b)
  && forallb (fun p => Bool.eqb (starts_with p a) (starts_with p b)) prefixes5.

Definition pair_ok (guard : str) (ab : str * str) : bool :=
  let (a, b) := ab in
  str_eqb a b
  || (ident_ok a && ident_ok b && same_class a b
      && negb (is_keyword a) && negb (is_keyword b) && negb (is_special a) && negb (is_special b)
      && negb (str_eqb (upper a) guard) && negb (str_eqb (upper b) guard)
      && negb (str_eqb a guard) && negb (str_eqb b guard)).

Fixpoint nodupb (l : list str) : bool :=
  match l with [] => true | a :: r => negb (str_in a r) && nodupb r end.

(* sigma lists EVERY identifier spelling of the file (identity pairs for the names that stay) *)
Definition rename_ok (guard : str) (sigma : list (str * str)) : bool :=
  forallb (pair_ok guard) sigma && nodupb (List.map fst sigma) && nodupb (List.map snd sigma).

Definition rename (sigma : list (str * str)) (v : str) : str :=
  match assoc v sigma with Some w => w | None => v end.

(* forms whose result is invariant under an admissible renaming (parameters checked against the reviewed lists) *)
Definition inner_lits_ok (ok : str -> bool) (g : form) : bool :=
  match g with
  | FEqLit l => ok l
  | FInLits ls | FDispatch ls => forallb ok ls
  | _ => false
  end.

Definition rename_inv (f : form) : bool :=
  match f with
  | FLen | FLenStr | FTruthy | FIsNone | FTokenStr | FStore _ | FHeaderRegex | FFatalMessage | FDebugPrint => true
  | FEqLit _ | FInLits _ | FDispatch _ => inner_lits_ok lit_special f
  | FStartsWith p => str_in p prefixes5
  | FIsUpper => true
  | FCharsNotIn set _ => str_eqb set legal_chars
  | FCharsIn set brk => str_eqb set lower_chars && brk
  | FUpper g => match g with FEqFileDerived => true | _ => inner_lits_ok lit_special g end
  | FLower g => inner_lits_ok lit_special g
  | FSplitLens sep => str_eqb sep [10]
  | FEqOther | FEqFileDerived => true
  | _ => false
  end.

(* ------------------------------------------------------------------ C17: admissible content replacements *)
Inductive ckind := KLine | KBlock | KString | KChar.

(* characters a replacement may use.  Excluded: newline, tab (displayed width), backslash, the literal's own quote,
   `/` inside a block comment (so that neither "*/" nor "/*" nor the early end "/*/" can arise), and `?` `%` `:`
   - every trigraph starts with `?` and every digraph contains `%` or `:` (ObsProofs.digraphs_need_pct_colon), so
   `<` and `>` are harmless and allowed. *)
Definition content_char_ok (k : ckind) (c : N) : bool :=
  negb (chr_in c [10; 9; 92; 63; 37; 58])
  && match k with KBlock => negb (c =? 47) | KString => negb (c =? 34) | KChar => negb (c =? 39) | KLine => true end.

(* same length; newlines and tabs stay where they are; every other position gets an allowed character *)
Fixpoint replace_ok (k : ckind) (old new : str) : bool :=
  match old, new with
  | [], [] => true
  | a :: o, b :: n => (if (a =? 10) || (a =? 9) then b =? a else content_char_ok k b) && replace_ok k o n
  | _, _ => false
  end.

(* opening and closing delimiters of a token of that kind: value = open ++ content ++ close *)
Definition frames (k : ckind) : list (str * str) :=
  match k with
  | KLine => [(s "//", [])]
  | KBlock => [(s "/*", s "*/")]
  | KString => List.map (fun p => (p ++ [34], [34])) ([] :: quote_prefixes)
  | KChar => List.map (fun p => (p ++ [39], [39])) ([] :: quote_prefixes)
  end.
Definition all_opens : list str := List.map fst (frames KLine ++ frames KBlock ++ frames KString ++ frames KChar).

Definition lit_plain (l : str) : bool := forallb ident_char l.
(* is `starts_with p (o ++ x)` decided by o alone? *)
Definition decided (p o : str) : bool := Nat.leb (List.length p) (List.length o) || negb (starts_with o p).

Definition replace_inv (f : form) : bool :=
  match f with
  | FLen | FLenStr | FTruthy | FIsNone | FTokenStr | FFatalMessage | FDebugPrint => true
  | FEqLit _ | FInLits _ | FDispatch _ => inner_lits_ok lit_plain f
  | FUpper g | FLower g => inner_lits_ok lit_plain g
  | FStartsWith p => forallb (decided p) all_opens
  | FSplitLens sep => str_eqb sep [10]
  | _ => false
  end.

(* ------------------------------------------------------------------ coverage of the generated table *)
Definition entry := (string * string * list string * form)%type.

Fixpoint form_tag (f : form) : string :=
  match f with
  | FLen => "FLen" | FLenStr => "FLenStr" | FTruthy => "FTruthy" | FIsNone => "FIsNone" | FTokenStr => "FTokenStr"
  | FEqLit _ => "FEqLit" | FInLits _ => "FInLits" | FStartsWith _ => "FStartsWith" | FEndsWith _ => "FEndsWith"
  | FIsUpper => "FIsUpper" | FIsLower => "FIsLower" | FCharsNotIn _ _ => "FCharsNotIn" | FCharsIn _ _ => "FCharsIn"
  | FContains _ => "FContains" | FUpper g => "FUpper " ++ form_tag g | FLower g => "FLower " ++ form_tag g
  | FStrip _ g => "FStrip " ++ form_tag g | FSplitExt _ g => "FSplitExt " ++ form_tag g | FSplitLens _ => "FSplitLens"
  | FEqOther => "FEqOther" | FEqFileDerived => "FEqFileDerived" | FDispatch _ => "FDispatch"
  | FStore p => "FStore " ++ p | FHeaderRegex => "FHeaderRegex" | FFatalMessage => "FFatalMessage"
  | FDebugPrint => "FDebugPrint"
  end%string.

Definition content_kinds : list string := ["COMMENT"; "MULT_COMMENT"; "STRING"; "CHAR_CONST"]%string.
Definition mem_string (x : string) (l : list string) : bool := existsb (String.eqb x) l.
Definition kinds_exclude (bad : list string) (kinds : list string) : bool :=
  match kinds with [] => false | _ => negb (existsb (fun k => mem_string k bad) kinds) end.

(* REVIEWED: reads that never see the content of a comment or literal the property speaks about, although the
   token kind is not syntactically evident at the site (or is a content kind the property text excludes):
   - the name after #define / #ifndef / #ifdef / #undef: IsPreprocessorStatement raises CParsingError (file not
     analysable) unless it is an IDENTIFIER (check_define, _just_identifier);
   - scope.fnames / scope.vars_name hold identifier tokens (IsFuncDeclaration / IsFuncPrototype / IsVarDeclaration);
   - context.header only accumulates the leading comment statements of the file = "the 42 header" (C13's model);
   - the STRING after #include is excluded by the property text. *)
Definition reviewed_not_content : list (string * string * string) :=
  [("norminette/context.py", "Macro.from_token", "FStore Macro.name");
   ("norminette/context.py", "PreProcessors.has_macro_defined", "FEqFileDerived");
   ("norminette/rules/check_identifier_name.py", "CheckIdentifierName.run", "FCharsNotIn");
   ("norminette/rules/check_preprocessor_define.py", "CheckPreprocessorDefine.run", "FIsUpper");
   ("norminette/rules/check_preprocessor_protection.py", "CheckPreprocessorProtection.run", "FUpper FEqFileDerived");
   ("norminette/rules/check_preprocessor_protection.py", "CheckPreprocessorProtection.run", "FEqFileDerived");
   ("norminette/rules/is_func_declaration.py", "IsFuncDeclaration.check_func_format", "FStore scope.fnames");
   ("norminette/rules/is_func_prototype.py", "IsFuncPrototype.check_func_format", "FStore scope.fnames");
   ("norminette/rules/check_header.py", "CheckHeader.parse_header", "FStore context.header");
   ("norminette/rules/check_header.py", "CheckHeader.check_header", "FHeaderRegex");
   ("norminette/rules/check_preprocessor_include.py", "CheckPreprocessorInclude.run", "FStrip FStrip FSplitExt FEqLit")]%string.

Definition reviewed_site (e : entry) : bool :=
  let '(file, fn, _, f) := e in
  existsb (fun r => let '(a, b, c) := r in String.eqb a file && String.eqb b fn && String.eqb c (form_tag f))
          reviewed_not_content.

Definition covered_rename (e : entry) : bool :=
  let '(_, _, kinds, f) := e in rename_inv f || kinds_exclude ["IDENTIFIER"%string] kinds.
Definition covered_replace (e : entry) : bool :=
  let '(_, _, kinds, f) := e in replace_inv f || kinds_exclude content_kinds kinds || reviewed_site e.
Definition covered (e : entry) : bool := covered_rename e && covered_replace e.
