(* C01: the lexeme-level sub-grammar of the conforming family G (DESIGN 4.1) on which the silence of the
   tokenizer is PROVED for texts of unbounded length, and the shape of the full C01 statement.
   A conforming statement line is a list of lexemes; `render` writes it to text; `chain` is the boolean
   well-formedness: every lexeme is of an allowed form and is followed by a character after which it cannot
   be continued or merged (G always separates two lexemes that could merge).  No proofs here. *)
From NV Require Import Model.Base Model.Diag Model.Lexer Spec.CConst.

(* ---------------------------------------------------------------- alphabets *)
Definition lower (c : N) : bool := ((97 <=? c) && (c <=? 122))%N.
(* first characters of the identifiers handled in general: every letter and `_` except l L u U (the letters that can
   start a prefixed character / string literal: for those the three following characters decide, see `atoms`) *)
Definition ident_first : str := s "abcdefghijkmnopqrstvwxyzABCDEFGHIJKMNOPQRSTVWXYZ_".
(* operators made of ONE character that no following character can extend *)
Definition ops_plain : str := s ",;~".
(* one-character operators that a following character could extend (+= ++ -> << <: // ...): their follower is restricted *)
Definition ops_multi : str := s "+-*/<>^&|!=".
(* what may directly follow such an operator in G: a space (binary use), or the operand of a unary use *)
Definition op_follow : str := s " (abcdefghijklmnopqrstuvwxyz0123456789_'" ++ [34%N].
Definition bracket_chars : str := s "()[]{}".
(* what may directly follow a constant / keyword / listed name *)
Definition atom_follow : str := s " ;),]" ++ [10%N].

(* constants, keywords, operators of two or three characters (and %) and the identifiers beginning with l / u, as a finite explicit list (the bound is this list):
   the representatives of every constant family of Spec/CConst.v (all bases, suffix kinds, decimal and hexadecimal
   floats, simple / octal / hexadecimal escapes, prefixed literals, strings containing code-like text), each inside its
   guard, the keywords of G and names that start like a literal prefix *)
Definition atoms : list str :=
  int_reprs ++ [s "7"; s "99999"; s "0x0"; s "0XBe9ul"; s "0xab1"; s "0b01111110"; s "5u"; s "5U"; s "5l"; s "5L"; s "5ul";
                s "5UL"; s "5ll"; s "5LL"; s "5ull"; s "5lu"; s "5uz"; s "02751ull"]
  ++ float_reprs ++ [s "0.25"; s "1.5e-3"; s "2E+4"; s "3.f"; s "1.0F"; s "2.5l"; s "0x1p-2"; s "0xAp+1"; s "12.25e-12L"]
  ++ [qt ++ s "a" ++ qt; qt ++ s "0" ++ qt; qt ++ s " " ++ qt; qt ++ bsl ++ s "n" ++ qt; qt ++ bsl ++ s "0" ++ qt; qt ++ bsl ++ s "t" ++ qt;
      qt ++ bsl ++ bsl ++ qt; qt ++ bsl ++ qt ++ qt; qt ++ dq ++ qt; qt ++ bsl ++ s "x41" ++ qt; qt ++ bsl ++ s "101" ++ qt;
      s "L" ++ qt ++ s "a" ++ qt; qt ++ s ";" ++ qt; qt ++ s "{" ++ qt; qt ++ s "?" ++ qt]
  ++ [dq ++ s "abc" ++ dq; dq ++ dq; dq ++ s "a b" ++ dq; dq ++ s "a" ++ bsl ++ dq ++ s "b" ++ dq; dq ++ s "%d" ++ bsl ++ s "n" ++ dq;
      dq ++ s "{;}" ++ dq; s "L" ++ dq ++ s "w" ++ dq; s "u8" ++ dq ++ s "x" ++ dq; dq ++ s "a" ++ bsl ++ bsl ++ dq;
      dq ++ s "if (x)" ++ dq; dq ++ s "it" ++ qt ++ s "s" ++ dq]
  ++ [s "if"; s "else"; s "while"; s "return"; s "break"; s "continue"; s "sizeof"; s "int"; s "char"; s "long"; s "unsigned";
      s "void"; s "static"; s "const"; s "struct"; s "size_t"; s "t_list"]
  ++ [s "&&"; s "||"; s "=="; s "!="; s "<="; s ">="; s "<<"; s ">>"; s "+="; s "-="; s "*="; s "/="; s "%="; s "&="; s "|="; s "^=";
      s "<<="; s ">>="; s "++"; s "--"; s "%"]
  ++ [s "l"; s "u"; s "len"; s "lst"; s "u8"; s "ul"; s "uz"; s "l_1"; s "u8x"; s "L"; s "U"; s "LEN"; s "U8"].

(* the guards of Spec/CConst.v hold for every listed constant (checked in Proofs/ConformingProofs.v) *)
Definition atoms_guarded : bool :=
  forallb (fun w => negb (shape_k1 w) && guard_float w && guard_char w && guard_string w) atoms.

(* ---------------------------------------------------------------- lexemes *)
Inductive lexeme :=
| LIdent (c : N) (v : str)      (* identifier / keyword: c a letter or _ (not l L u U), v identifier characters *)
| LSpace                        (* one space *)
| LTab                          (* one tab (indentation / alignment) *)
| LNewline                      (* end of a line *)
| LOp (o : N)                   (* a one-character operator *)
| LBracket (b : N)              (* ( ) [ ] { } *)
| LAtom (w : str).              (* a member of `atoms` *)

Definition lx_text (a : lexeme) : str :=
  match a with
  | LIdent c v => c :: v
  | LSpace => [32%N]
  | LTab => [9%N]
  | LNewline => [10%N]
  | LOp o => [o]
  | LBracket b => [b]
  | LAtom w => w
  end.

Definition first_in (set : str) (r : str) : bool := match r with d :: _ => chr_in d set | [] => false end.

(* the lexeme is of an allowed form and r (the text after it) cannot continue it *)
Definition lexeme_ok (a : lexeme) (r : str) : bool :=
  match a with
  | LIdent c v => chr_in c ident_first && forallb is_ident_char v
                  && match r with [] => true | d :: _ => negb (is_ident_char d) end
  | LSpace | LTab | LNewline => true
  | LOp o => chr_in o ops_plain || (chr_in o ops_multi && first_in op_follow r)
  | LBracket b => chr_in b bracket_chars
  | LAtom w => str_in w atoms && (match r with [] => true | _ => false end || first_in atom_follow r)
  end.

Fixpoint render (ls : list lexeme) : str :=
  match ls with [] => [] | a :: ls' => lx_text a ++ render ls' end.

Fixpoint chain (ls : list lexeme) : bool :=
  match ls with [] => true | a :: ls' => lexeme_ok a (render ls') && chain ls' end.

(* ---------------------------------------------------------------- the token kinds of a rendered text *)
(* type and value of the token an atom is cut into (evaluated once per atom on `w ` ) *)
Definition atom_tok (w : str) : str * option str :=
  match step nouni nouni (init (w ++ [32%N])) with
  | StepItem (ITok t _ _) _ => (t_type t, t_val t)
  | _ => ([], None)
  end.
Definition type_in (tbl : list (str * str)) (c : N) : str := match assoc [c] tbl with Some ty => ty | None => [] end.

(* the type of the ONE token each lexeme is cut into (Proofs/ConformingProofs.conforming_text_tokens) *)
Definition lx_type (a : lexeme) : str :=
  match a with
  | LIdent c v => match assoc (c :: v) keywords with Some k => k | None => s "IDENTIFIER" end
  | LSpace => s "SPACE"
  | LTab => s "TAB"
  | LNewline => s "NEWLINE"
  | LOp o => type_in operators o
  | LBracket b => type_in brackets b
  | LAtom w => fst (atom_tok w)
  end.

(* token kinds that no unit of the conforming family G contains: the ternary operator and the colon, goto, labels,
   for / do / switch / case / default, and the keywords of declarations G does not use inside function bodies *)
Definition forbidden_kinds : list str :=
  [s "TERN_CONDITION"; s "COLON"; s "GOTO"; s "FOR"; s "SWITCH"; s "CASE"; s "DO"; s "DEFAULT"].
Definition kinds_ok (ls : list lexeme) : bool := forallb (fun a => negb (str_in (lx_type a) forbidden_kinds)) ls.

(* convenience for examples: a name as a lexeme *)
Definition ident (x : str) : lexeme := match x with c :: v => LIdent c v | [] => LSpace end.
