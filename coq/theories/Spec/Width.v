(* C03, line length: the visual width of a line (tabs as 4-column tab stops), written from the property
   text, and the model of the two checks that compare columns with the limit.  No proofs here. *)
From NV Require Import Model.Base Model.Diag Model.Lexer Spec.TruePos Gen.Limits.

Definition no_nl (x : str) : bool := forallb (fun c => negb (N.eqb c 10)) x.
Definition count_nl (x : str) : Z := Z.of_nat (List.length (filter (N.eqb 10) x)).

(* width of a newline-free text that starts in column 1 *)
Definition line_width (text : str) : Z := snd (pos_after (1, 1) text) - 1.

(* the column limit used by CheckLineLen, read off the comparison in the source (Gen.Limits) *)
Definition limit_of (l : list (string * string * Z)) (what : string) : Z :=
  match filter (fun e => String.eqb (fst (fst e)) what) l with
  | (_, _, v) :: _ => v
  | [] => 0
  end.
Definition col_limit : Z := limit_of limits_check_line_len "tkn.pos[1]".

(* CheckLineLen.run on one statement: the first token of each line whose column exceeds the limit is reported *)
Fixpoint line_len_check (seen : list Z) (toks : list token) : list (Z * Z) :=
  match toks with
  | [] => []
  | t :: r =>
      if (col_limit <? t_col t) && negb (existsb (Z.eqb (t_line t)) seen)
      then (t_line t, t_col t) :: line_len_check (t_line t :: seen) r
      else line_len_check seen r
  end.

(* CheckCommentLineLen on a block comment token at (l0, c0) with value v: lines of the value, the first one padded *)
Fixpoint split_nl (x : str) (cur : str) : list str :=
  match x with
  | [] => [rev cur]
  | c :: r => if N.eqb c 10 then rev cur :: split_nl r [] else split_nl r (c :: cur)
  end.
Definition comment_len_limit : Z := limit_of limits_check_comment_line_len "len(line)".
Definition line_comment_limit : Z := limit_of limits_check_comment_line_len "index + len(token.value)".
Fixpoint long_lines (lineno : Z) (ls : list str) : list Z :=
  match ls with
  | [] => []
  | l :: r => (if comment_len_limit <? zl l then [lineno] else []) ++ long_lines (lineno + 1) r
  end.
Definition block_comment_check (l0 c0 : Z) (v : str) : list Z :=
  match split_nl v [] with
  | first :: more => long_lines l0 ((repeat 32%N (Z.to_nat (c0 - 1)) ++ first) :: more)
  | [] => []
  end.
Definition line_comment_check (c0 : Z) (v : str) : bool := line_comment_limit <? c0 + zl v.
