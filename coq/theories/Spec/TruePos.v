(* Independent specification of source positions: the 1-based line and VISUAL column (tab stops
   every 4 columns: 1, 5, 9, ...) of the raw character at a given offset.  Written from the
   property text, not from the lexer: every raw character other than newline and tab - including
   each character of a trigraph and the backslash of a line splice - is one column wide. *)
From NV Require Import Model.Base.

Definition adv (lc : Z * Z) (ch : N) : Z * Z :=
  let (l, c) := lc in
  if N.eqb ch 10 then (l + 1, 1)
  else if N.eqb ch 9 then (l, c + (4 - (c - 1) mod 4))
  else (l, c + 1).

Definition pos_after (lc : Z * Z) (pre : str) : Z * Z := fold_left adv pre lc.

Definition true_pos (src : str) (off : nat) : Z * Z := pos_after (1, 1) (firstn off src).

(* all positions at once (for the harness): position of offset 0, 1, .., |src| *)
Fixpoint positions_from (lc : Z * Z) (r : str) : list (Z * Z) :=
  lc :: match r with [] => [] | ch :: r' => positions_from (adv lc ch) r' end.
Definition all_positions (src : str) : list (Z * Z) := positions_from (1, 1) src.
