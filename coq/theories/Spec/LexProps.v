(* The lexical properties C09 / C10 in executable (boolean) form, stated against the independent
   specifications TruePos / Normalise.  The theorems of Proofs/ say that the lexer model satisfies
   them on every input; the harness applies the SAME (extracted) definitions to the tokens the
   implementation produced. *)
From NV Require Import Model.Base Model.Diag Model.Lexer Spec.TruePos Spec.Normalise.

Definition sub (src : str) (lo hi : nat) : str := firstn (hi - lo) (skipn lo src).

(* C09: the token's (line, column) is the true position of its first raw character *)
Definition c09_tok_ok (src : str) (t : token) (lo : nat) : bool :=
  let (l, c) := true_pos src lo in Z.eqb (t_line t) l && Z.eqb (t_col t) c.

Fixpoint rassoc (v : str) (l : list (str * str)) : option str :=
  match l with
  | [] => None
  | (k, v') :: r => if str_eqb v v' then Some k else rassoc v r
  end.

(* the source text a token stands for: its value, or the lexeme of its type *)
Definition text_of (t : token) : option str :=
  match t_val t with
  | Some v => Some v
  | None =>
      if str_eqb (t_type t) (s "SPACE") then Some [32%N]
      else if str_eqb (t_type t) (s "TAB") then Some [9%N]
      else if str_eqb (t_type t) (s "NEWLINE") then Some [10%N]
      else match rassoc (t_type t) keywords with
           | Some k => Some k
           | None => match rassoc (t_type t) operators with
                     | Some k => Some k
                     | None => rassoc (t_type t) brackets
                     end
           end
  end.

(* C10: the token text is the normalised raw segment *)
Definition c10_tok_ok (src : str) (t : token) (lo hi : nat) : bool :=
  match text_of t with
  | Some x =>
      norm_ok (str_eqb (t_type t) (s "MULT_COMMENT")) (snd (true_pos src lo)) (sub src lo hi) x
  | None => false
  end.

Definition item_lo (i : item) : nat := match i with ITok _ lo _ => lo | IBad lo => lo | ISkip lo _ => lo end.
Definition item_hi (i : item) : nat := match i with ITok _ _ hi => hi | IBad lo => S lo | ISkip _ hi => hi end.

(* consecutive, non-empty spans from `from` to `upto`: nothing dropped, duplicated or reordered *)
Fixpoint spans_tile (items : list item) (from upto : nat) : bool :=
  match items with
  | [] => Nat.eqb from upto
  | i :: r => Nat.eqb (item_lo i) from && Nat.ltb from (item_hi i) && spans_tile r (item_hi i) upto
  end.

Definition bad_reported (src : str) (ds : list diag) (lo : nat) : bool :=
  let (l, c) := true_pos src lo in
  existsb (fun d => str_eqb (d_name d) (s "BAD_LEXEME") &&
                    match d_hls d with
                    | [h] => Z.eqb (h_line h) l && Z.eqb (h_col h) c
                    | _ => false
                    end) ds.

Definition c10_item_ok (src : str) (ds : list diag) (i : item) : bool :=
  match i with
  | ITok t lo hi => c10_tok_ok src t lo hi
  | IBad lo => bad_reported src ds lo
  | ISkip lo hi => is_splice (sub src lo hi)
  end.

Definition c09_item_ok (src : str) (i : item) : bool :=
  match i with ITok t lo _ => c09_tok_ok src t lo | _ => true end.

Definition c09_ok (src : str) (items : list item) : bool := forallb (c09_item_ok src) items.
Definition c10_ok (src : str) (items : list item) (ds : list diag) : bool :=
  spans_tile items 0 (List.length src) && forallb (c10_item_ok src ds) items.

(* For the implementation only the token spans are observable: rebuild the items of a gap between
   two tokens (splices and single bad characters), the way the property reads it. *)
Fixpoint fill_gap (fuel : nat) (src : str) (lo hi : nat) : list item :=
  match fuel with
  | O => []
  | S f =>
      if Nat.leb hi lo then []
      else if is_splice (sub src lo (lo + 2)) && Nat.leb (lo + 2) hi then ISkip lo (lo + 2) :: fill_gap f src (lo + 2) hi
      else if is_splice (sub src lo (lo + 4)) && Nat.leb (lo + 4) hi then ISkip lo (lo + 4) :: fill_gap f src (lo + 4) hi
      else IBad lo :: fill_gap f src (S lo) hi
  end.

Fixpoint items_of_spans (src : str) (from : nat) (toks : list (token * nat * nat)) : list item :=
  match toks with
  | [] => fill_gap (S (List.length src)) src from (List.length src)
  | (t, lo, hi) :: r => fill_gap (S (List.length src)) src from lo ++ ITok t lo hi :: items_of_spans src hi r
  end.
