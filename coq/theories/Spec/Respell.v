(* C12: alternative spellings (digraphs, trigraphs) and line splices.  Definitions only.
   - `spellings c`: the raw spellings of one character, from the source's own tables (Gen.Dict);
   - `respellings w`: every way of writing the characters of w (each independently);
   - the sweeps: every operator / bracket of the source's tables in every spelling, followed by every class
     of delimiter, is recognised as the same token and consumed whole; every pair of operators written side
     by side gives the same token kinds in every spelling (longest match);
   - `render` / `canon` of a marked text, for the unbounded theorem about `peek`. *)
From NV Require Import Model.Base Model.Diag Model.Lexer Spec.CConst.

Definition keys_for (c : N) (tbl : list (str * str)) : list str :=
  map fst (filter (fun kv => str_eqb (snd kv) [c]) tbl).
Definition spellings (c : N) : list str := [c] :: keys_for c trigraphs ++ keys_for c digraphs.

Fixpoint respellings (w : str) : list str :=
  match w with
  | [] => [[]]
  | c :: r => flat_map (fun sp => map (app sp) (respellings r)) (spellings c)
  end.

(* no accidental di/trigraph across the boundaries of the chosen spellings: reading the raw text greedily gives
   back exactly the intended characters (C's own maximal-munch caveat, e.g. `<` followed by the digraph `:>`) *)
Fixpoint logical (fuel : nat) (r : str) : str :=
  match fuel with
  | O => []
  | S f => match peek1 r with
           | None => []
           | Some (c, n) => c ++ logical f (skipn n r)
           end
  end.
Definition reads_as (raw canon : str) : bool := str_eqb (logical (S (List.length raw)) raw) canon.

(* what may follow an operator without continuing it *)
Definition op_rests : list str := [[]; s " "; s "a"; s "1"; s "("; s ")"; [10%N]; [34%N]; [39%N]; [9%N]].

Definition tok_types (src : str) : option (list str) :=
  match lex nouni nouni src with
  | Ok (items, x) => if nonempty (errs x) then None else Some (map t_type (tokens_of items))
  | _ => None
  end.

(* one operator/bracket `w` of type `ty`: every capture-free spelling followed by every rest is one token of
   type ty spanning the whole spelling *)
Definition one_op_ok (ty w' rest : str) : bool :=
  match step nouni nouni (init (w' ++ rest)) with
  | StepItem (ITok t lo hi) x =>
      str_eqb (t_type t) ty && Nat.eqb lo 0 && Nat.eqb hi (List.length w') && negb (nonempty (errs x))
      && match t_val t with None => true | Some _ => false end
  | _ => false
  end.
(* `.` followed by a digit starts a floating constant, as in C *)
Definition rest_applies (w rest : str) : bool := negb (str_eqb w (s ".") && str_eqb rest (s "1")).
Definition op_sweep (tbl : list (str * str)) : bool :=
  forallb (fun kv => forallb (fun w' => negb (reads_as w' (fst kv)) ||
                        forallb (fun r => negb (rest_applies (fst kv) r) || one_op_ok (snd kv) w' r) op_rests) (respellings (fst kv))) tbl.
Definition op_sweep_failures (tbl : list (str * str)) : list (str * str) :=
  flat_map (fun kv => flat_map (fun w' => if negb (reads_as w' (fst kv)) then [] else
                        flat_map (fun r => if negb (rest_applies (fst kv) r) || one_op_ok (snd kv) w' r then [] else [(w', r)]) op_rests) (respellings (fst kv))) tbl.

Fixpoint strs_eqb (a b : list str) : bool :=
  match a, b with
  | [], [] => true
  | x :: a', y :: b' => str_eqb x y && strs_eqb a' b'
  | _, _ => false
  end.

(* longest match: two operators written side by side, in every capture-free spelling of the pair, give the same
   sequence of token kinds as the canonical spelling *)
Definition pair_ok (a b : str) : bool :=
  let w := a ++ b in
  match tok_types w with
  | None => true          (* the canonical text itself does not lex cleanly (`/` `*` opens a comment) *)
  | Some tys => forallb (fun w' => negb (reads_as w' w) ||
                                  match tok_types w' with Some t' => strs_eqb tys t' | None => false end)
                        (respellings w)
  end.
Definition all_ops : list (str * str) := operators ++ brackets.
Definition pair_sweep : bool :=
  forallb (fun a => forallb (fun b => pair_ok (fst a) (fst b)) all_ops) all_ops.
Definition pair_failures : list (str * str) :=
  flat_map (fun a => flat_map (fun b => if pair_ok (fst a) (fst b) then [] else [(fst a, fst b)]) all_ops) all_ops.

(* ---------------------------------------------------------------- marked texts (unbounded theorem) *)
Inductive mark :=
| Plain (c : N)                 (* written as itself *)
| Alt (key : str) (c : N).      (* written as the di/trigraph `key`, which the tables map to c *)
Definition render1 (m : mark) : str := match m with Plain c => [c] | Alt k _ => k end.
Definition canon1 (m : mark) : N := match m with Plain c => c | Alt _ c => c end.
Definition render (ms : list mark) : str := flat_map render1 ms.
Definition canon (ms : list mark) : str := map canon1 ms.

Definition in_table (k : str) (c : N) (tbl : list (str * str)) : bool :=
  match assoc k tbl with Some v => str_eqb v [c] | None => false end.
(* a marked text is well formed when every Alt names an entry of the tables, and capture-free when no Plain
   character starts a di/trigraph together with the raw characters that follow it *)
Fixpoint wf_marks (ms : list mark) : bool :=
  match ms with
  | [] => true
  | Plain c :: r =>
      let nxt := render r in
      match assoc (c :: firstn 2 nxt) trigraphs, assoc (c :: firstn 1 nxt) digraphs with
      | None, None => wf_marks r
      | _, _ => false
      end
  | Alt k c :: r =>
      (in_table k c trigraphs && Nat.eqb (List.length k) 3
       || in_table k c digraphs && Nat.eqb (List.length k) 2 &&
          match assoc (firstn 3 (k ++ render r)) trigraphs with None => true | Some _ => false end)
      && wf_marks r
  end.

(* the two forms of a line splice *)
Definition splice1 : str := [92; 10]%N.
Definition splice2 : str := [63; 63; 47; 10]%N.
