(* Independent specification of the documented normalisations of a raw token segment:
   line splices removed, trigraphs/digraphs replaced by their standard character (greedy, left
   to right, trigraphs first - ISO C 5.1.1.2 / 5.2.1.1 / 6.4.6, the tables below are the
   standard's, not the tool's), and - inside block comments only - tabs expanded to spaces up
   to the next 4-column tab stop of the true visual column. *)
From NV Require Import Model.Base Spec.TruePos.

Definition std_trigraph (a b c : N) : option N :=
  if N.eqb a 63 && N.eqb b 63 then
    match c with
    | 60%N => Some 123%N | 62%N => Some 125%N | 40%N => Some 91%N | 41%N => Some 93%N | 61%N => Some 35%N
    | 47%N => Some 92%N | 39%N => Some 94%N | 33%N => Some 124%N | 45%N => Some 126%N
    | _ => None
    end
  else None.

Definition std_digraph (a b : N) : option N :=
  match a, b with
  | 60%N, 37%N => Some 123%N | 37%N, 62%N => Some 125%N | 60%N, 58%N => Some 91%N
  | 58%N, 62%N => Some 93%N | 37%N, 58%N => Some 35%N
  | _, _ => None
  end.

(* the next logical character: (character, number of raw characters) *)
Definition logical1 (r : str) : option (N * nat) :=
  match r with
  | [] => None
  | a :: r1 =>
      let tri := match r1 with b :: c :: _ => std_trigraph a b c | _ => None end in
      match tri with
      | Some t => Some (t, 3%nat)
      | None =>
          match r1 with
          | b :: _ => match std_digraph a b with Some d => Some (d, 2%nat) | None => Some (a, 1%nat) end
          | [] => Some (a, 1%nat)
          end
      end
  end.

(* fuel = |r| + 1; c = true visual column of the first raw character of r *)
Fixpoint normalise_from (fuel : nat) (comment : bool) (c : Z) (r : str) : str :=
  match fuel with
  | O => []
  | S f =>
      match logical1 r with
      | None => []
      | Some (ch, n) =>
          let r' := skipn n r in
          if N.eqb ch 92 && match r' with x :: _ => N.eqb x 10 | [] => false end
          then normalise_from f comment 1 (skipn 1 r')                         (* line splice *)
          else if N.eqb ch 10 then ch :: normalise_from f comment 1 r'
          else if N.eqb ch 9 then
            let sp := 4 - (c - 1) mod 4 in
            (if comment then repeat 32%N (Z.to_nat sp) else [ch]) ++ normalise_from f comment (c + sp) r'
          else ch :: normalise_from f comment (c + Z.of_nat n) r'
      end
  end.

Definition normalise (comment : bool) (c : Z) (seg : str) : str :=
  normalise_from (S (List.length seg)) comment c seg.

(* "Reproduces the input up to the documented normalisations": `text` is the raw segment in which
   di/trigraphs are replaced, comment tabs expanded, and every line splice is EITHER removed OR
   kept verbatim as backslash + newline (a splice that the tool does not remove - the newline
   after an escaped backslash inside a literal - loses nothing). *)
Fixpoint prefix_drop (p x : str) : option str :=
  match p, x with
  | [], _ => Some x
  | a :: p', b :: x' => if N.eqb a b then prefix_drop p' x' else None
  | _ :: _, [] => None
  end.

Fixpoint norm_match (fuel : nat) (comment : bool) (c : Z) (r text : str) : bool :=
  match fuel with
  | O => false
  | S f =>
      match logical1 r with
      | None => match text with [] => true | _ => false end
      | Some (ch, n) =>
          let r' := skipn n r in
          if N.eqb ch 92 && match r' with x :: _ => N.eqb x 10 | [] => false end
          then norm_match f comment 1 (skipn 1 r') text
               || match prefix_drop [92; 10]%N text with
                  | Some t' => norm_match f comment 1 (skipn 1 r') t'
                  | None => false
                  end
          else if N.eqb ch 10 then
            match text with t :: t' => N.eqb t 10 && norm_match f comment 1 r' t' | [] => false end
          else if N.eqb ch 9 then
            let sp := 4 - (c - 1) mod 4 in
            match prefix_drop (if comment then repeat 32%N (Z.to_nat sp) else [ch]) text with
            | Some t' => norm_match f comment (c + sp) r' t'
            | None => false
            end
          else
            match text with t :: t' => N.eqb t ch && norm_match f comment (c + Z.of_nat n) r' t' | [] => false end
      end
  end.

Definition norm_ok (comment : bool) (c : Z) (seg text : str) : bool :=
  norm_match (S (List.length seg)) comment c seg text.

(* a raw segment that is exactly one line splice *)
Definition is_splice (seg : str) : bool :=
  str_eqb seg [92; 10]%N || str_eqb seg [63; 63; 47; 10]%N.
