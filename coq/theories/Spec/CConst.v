(* C11 6.4.4 / 6.4.5 constants with the extensions the tool supports (0b binary, the integer and
   float suffix tables of the source, L/u/U/u8 prefixes): INDEPENDENT of the lexer model.
   Two forms:
   - boolean recognisers over unbounded digit strings (is_int_const, is_dec_float, ...);
   - bounded enumerators (all bases, all first digits, tails over reduced digit alphabets that
     contain the troublesome digits b B e E, all suffix spellings, exponent signs, empty integer
     or fraction parts, every escape form) - the families the sweep theorems quantify over and
     the harness replays on the implementation.
   No proofs here. *)
From NV Require Import Model.Base Model.Diag Model.Lexer.

Definition nouni (_ : N) : bool := false.

(* all strings over `alpha` of length <= k (the empty one first) *)
Fixpoint words (alpha : str) (k : nat) : list str :=
  match k with
  | O => [[]]
  | S k' => [] :: flat_map (fun c => map (cons c) (words alpha k')) alpha
  end.
Definition words1 (alpha : str) (k : nat) : list str := tl (words alpha k).       (* non-empty ones *)
Definition cat (a b : list str) : list str := flat_map (fun x => map (app x) b) a.
Definition singles (a : str) : list str := map (fun c => [c]) a.

(* ---------------------------------------------------------------- recognisers (unbounded) *)
Definition is_dec (c : N) : bool := ((48 <=? c) && (c <=? 57))%N.
Definition is_oct (c : N) : bool := ((48 <=? c) && (c <=? 55))%N.
Definition is_bin (c : N) : bool := ((48 <=? c) && (c <=? 49))%N.
Definition is_hex (c : N) : bool :=
  is_dec c || ((97 <=? c) && (c <=? 102))%N || ((65 <=? c) && (c <=? 70))%N.
Definition all_of (p : N -> bool) (x : str) : bool := forallb p x.
Definition nonempty_all (p : N -> bool) (x : str) : bool := nonempty x && forallb p x.

Inductive base := Dec | Oct | Hex | Bin.

(* the digits of an integer constant without its suffix: Some base when well formed *)
Definition int_body (w : str) : option base :=
  match w with
  | 48%N :: c :: r =>
      if (N.eqb c 120 || N.eqb c 88) then if nonempty_all is_hex r then Some Hex else None
      else if (N.eqb c 98 || N.eqb c 66) then if nonempty_all is_bin r then Some Bin else None
      else if all_of is_oct (c :: r) then Some Oct else None
  | [48%N] => Some Oct
  | c :: r => if is_dec c && negb (N.eqb c 48) && all_of is_dec r then Some Dec else None
  | [] => None
  end.

(* ---------------------------------------------------------------- bounded families *)
Definition dec_bodies : list str := cat (singles (s "123456789")) (words (s "059") 2).
Definition oct_bodies : list str := map (cons 48%N) (words (s "037") 3).
Definition hex_bodies : list str :=
  cat [s "0x"; s "0X"] (cat (singles (s "0123456789abcdefABCDEF")) (words (s "09abBeEF") 2)).
Definition bin_bodies : list str := cat [s "0b"; s "0B"] (words1 (s "01") 4).
Definition int_bodies : list str := dec_bodies ++ oct_bodies ++ hex_bodies ++ bin_bodies.
(* one or two representatives per base, combined with EVERY suffix of the source's table *)
Definition int_reprs : list str :=
  [s "1"; s "42"; s "0"; s "017"; s "0x1F"; s "0Xa0"; s "0b101"; s "0B1"].
Definition int_small_suffixes : list str := [[]; s "u"; s "LL"; s "ul"].
Definition int_consts (suffixes : list str) : list str :=
  cat int_bodies int_small_suffixes ++ cat int_reprs suffixes.

Definition exponents (letters : str) : list str :=
  cat (singles letters) (cat [[]; s "+"; s "-"] [s "5"; s "12"]).
Definition dec_float_bodies : list str :=
  let ints := [s "0"; s "12"; s "007"] in
  let fracs := [s "5"; s "25"] in
  let exps := exponents (s "eE") in
  cat ints (cat [s "."] (cat ([] :: fracs) ([] :: exps)))        (* 1.  1.5  1.e5  1.5e5 *)
  ++ cat [s "."] (cat fracs ([] :: exps))                         (* .5  .5e5 *)
  ++ cat ints exps.                                               (* 1e5 *)
Definition hex_float_bodies : list str :=
  let hs := [s "1"; s "b3"; s "e"; s "1f"] in
  let fr := [s "8"; s "aB"] in
  let exps := exponents (s "pP") in
  cat [s "0x"; s "0X"]
    (cat hs exps                                                   (* 0x1p3 *)
     ++ cat hs (cat [s "."] (cat ([] :: fr) exps))                 (* 0x1.p3  0x1.8p3 *)
     ++ cat [s "."] (cat fr exps)).                                (* 0x.8p3 *)
Definition float_reprs : list str := [s "1.5"; s ".5"; s "1e5"; s "5."; s "0x1.8p3"; s "0Xap-2"].
Definition float_small_suffixes : list str := [[]; s "f"; s "L"].
Definition float_consts (suffixes : list str) : list str :=
  cat (dec_float_bodies ++ hex_float_bodies) float_small_suffixes ++ cat float_reprs suffixes.

Definition qt : str := [39%N].
Definition dq : str := [34%N].
Definition bsl : str := [92%N].
Definition simple_escapes : list str := map (app bsl) (singles ([39; 34; 63; 92]%N ++ s "abfnrtv")).
Definition octal_escapes : list str := map (app bsl) [s "0"; s "7"; s "12"; s "101"; s "377"].
Definition hex_escapes : list str := map (app (bsl ++ s "x")) [s "4"; s "41"; s "fF"].
Definition long_hex_escapes : list str := map (app (bsl ++ s "x")) [s "123"; s "1234"].
Definition ucn_escapes : list str := [bsl ++ s "u1234"; bsl ++ s "U0001F600"].
Definition plain_cchars : list str :=
  singles (s "a0 ;{}[]#%^&*()-+=|<>?,./~!@$`_:" ++ [9%N]).
Definition c_prefixes : list str := [[]; s "L"; s "u"; s "U"; s "u8"].
Definition cchars : list str :=
  plain_cchars ++ [dq] ++ simple_escapes ++ octal_escapes ++ hex_escapes ++ long_hex_escapes ++ ucn_escapes.
Definition schars : list str :=
  plain_cchars ++ [qt] ++ simple_escapes ++ octal_escapes ++ hex_escapes ++ long_hex_escapes ++ ucn_escapes.
Definition char_consts : list str := cat c_prefixes (cat [qt] (cat cchars [qt])).
Fixpoint seqs (xs : list str) (k : nat) : list str :=
  match k with O => [[]] | S k' => [] :: cat xs (seqs xs k') end.
Definition string_consts : list str :=
  cat c_prefixes (cat [dq] (cat (seqs schars 1 ++ cat [s "ab"; bsl ++ s "n"] schars ++ [s "a b c"; s "if (x) { y; }"]) [dq])).

(* what may follow a constant: nothing, or a character that can continue no constant *)
Definition last_is (set : str) (w : str) : bool :=
  match rev w with c :: _ => chr_in c set | [] => false end.
Definition delims (w : str) : list str :=
  [[]; s ";"; [10%N]] ++ (if last_is (s "eEpP") w then [] else [s "+1"]).
(* the longer delimiter list, used with the representative constants only *)
Definition delims_all (w : str) : list str :=
  [[]; s ";"; s " "; s ")"; s ","; [10%N]; s "]"; s "}"; s ":"; s "?"; s "*2"; s "/2"; s "=="; s "&&"; s "|"; s "<<"] ++
  (if last_is (s "eEpP") w then [] else [s "+1"; s "-x"; s "--"; s "->"]).

(* ---------------------------------------------------------------- the documented refuted shapes *)
(* K1: hex constant whose leading run of b/B digits is followed by a decimal digit.  Was a refuted shape (the Prefix group
   0[bBxX]* swallowed the b digits); repaired in the source (Prefix alternative 0[xX](?=[\da-fA-F])): no guard excludes it any
   more, the definition is kept for the statement of the positive theorems (C11_accepted_hex_b_digits) *)
Fixpoint k1_tail (r : str) (seen_b : bool) : bool :=
  match r with
  | c :: r' => if (N.eqb c 98 || N.eqb c 66) then k1_tail r' true else seen_b && is_dec c
  | [] => false
  end.
Definition shape_k1 (w : str) : bool :=
  match w with 48%N :: x :: r => (N.eqb x 120 || N.eqb x 88) && k1_tail r false | _ => false end.
(* a hex constant ending in e/E followed by a suffix: the suffix group then also swallows + and - *)
Definition shape_hex_e_suffix (w rest : str) : bool :=
  match w with
  | 48%N :: x :: r => (N.eqb x 120 || N.eqb x 88) &&
      (let (h, sfx) := NumRe.span is_hex r in last_is (s "eE") h && nonempty sfx && forallb (fun c => negb (N.eqb c 46)) sfx)
      && match rest with c :: _ => chr_in c (s "+-") | [] => false end
  | _ => false
  end.
(* hex float with an empty fraction or an empty integer part *)
Fixpoint has_sub (p x : str) : bool :=
  starts_with p x || match x with [] => false | _ :: x' => has_sub p x' end.
Definition shape_hexfloat_empty_part (w : str) : bool :=
  match w with
  | 48%N :: x :: r => (N.eqb x 120 || N.eqb x 88) &&
      (first_is 46%N r || has_sub (s ".p") r || has_sub (s ".P") r)
  | _ => false
  end.
(* hex float whose suffix starts with a hex letter (f F d D) and continues: the exponent group of the
   hexadecimal pattern takes HEX digits, so `0x1p3fi` is read as exponent p3f + suffix i *)
Fixpoint after_p (w : str) : option str :=
  match w with
  | c :: r => if (N.eqb c 112 || N.eqb c 80) then Some r else after_p r
  | [] => None
  end.
Definition shape_hexfloat_hex_suffix (w : str) : bool :=
  match w with
  | 48%N :: x :: r => (N.eqb x 120 || N.eqb x 88) &&
      match after_p r with
      | Some e =>
          let e' := match e with c :: t => if chr_in c (s "+-") then t else e | [] => e end in
          let sfx := snd (NumRe.span is_dec e') in
          match sfx with c :: _ :: _ => chr_in c (s "fFdD") | _ => false end
      | None => false
      end
  | _ => false
  end.
Definition shape_ucn (w : str) : bool := has_sub (bsl ++ s "u") w || has_sub (bsl ++ s "U") w.
(* \x with more than two hex digits (a character literal then counts several characters) *)
Definition long_hex_here (w : str) : bool :=
  match w with
  | x :: y :: a :: b :: c :: _ => N.eqb x 92 && N.eqb y 120 && is_hex a && is_hex b && is_hex c
  | _ => false
  end.
Fixpoint shape_long_hex (w : str) : bool :=
  long_hex_here w || match w with _ :: r => shape_long_hex r | [] => false end.

(* ---------------------------------------------------------------- the predicate the sweeps evaluate *)
(* the first step of the tokenizer on w ++ rest yields ONE token of type ty spanning exactly w, with value w,
   and no diagnostic at all *)
Definition lex_one_ok (ty w rest : str) : bool :=
  match step nouni nouni (init (w ++ rest)) with
  | StepItem (ITok t lo hi) x =>
      str_eqb (t_type t) ty && match t_val t with Some v => str_eqb v w | None => false end
      && Nat.eqb lo 0 && Nat.eqb hi (List.length w) && negb (nonempty (errs x))
  | _ => false
  end.

(* the whole of w ++ rest lexes, and a diagnostic `name` with a highlight inside w (or just after it) is reported *)
Definition lex_one_diag (name w rest : str) : bool :=
  match lex nouni nouni (w ++ rest) with
  | Ok (_, x) =>
      existsb (fun d => str_eqb (d_name d) name &&
                        existsb (fun h => Z.eqb (h_line h) 1 && Z.leb 1 (h_col h) && Z.leb (h_col h) (zl w + 1)) (d_hls d))
              (errs x)
  | _ => false
  end.

Definition guard_int (w rest : str) : bool := negb (shape_hex_e_suffix w rest).
(* the two hexadecimal-float shapes below were refuted shapes; both are repaired in the source (constant part with an empty
   fraction or integer part, DECIMAL exponent digits): no guard excludes them any more, the definitions are kept for the
   positive theorems *)
Definition guard_float (w : str) : bool := true.
Definition guard_char (w : str) : bool := negb (shape_ucn w) && negb (shape_long_hex w).
Definition guard_string (w : str) : bool := negb (shape_ucn w).

Definition sweep_with (dl : str -> list str) (ty : str) (guard : str -> str -> bool) (ws : list str) : bool :=
  forallb (fun w => forallb (fun r => negb (guard w r) || lex_one_ok ty w r) (dl w)) ws.
Definition sweep := sweep_with delims.
(* the failures, for diagnosis and for the harness *)
Definition sweep_failures_with (dl : str -> list str) (ty : str) (guard : str -> str -> bool) (ws : list str) : list (str * str) :=
  flat_map (fun w => flat_map (fun r => if negb (guard w r) || lex_one_ok ty w r then [] else [(w, r)]) (dl w)) ws.
Definition sweep_failures := sweep_failures_with delims.

(* ---------------------------------------------------------------- malformed families (DESIGN 4.11) *)
Definition m_rests : list str := [[]; s ";"; s " "; [10%N]].
Definition malformed : list (str * str * list str) :=   (* (family, diagnostic, members) *)
  [ (s "M1", s "INVALID_BIN_INT", cat [s "0b"; s "0B"] [s "2"; s "12"; s "102"; s "19"; s "0101019"]);
    (s "M2", s "INVALID_OCT_INT", map (cons 48%N) [s "8"; s "9"; s "18"; s "79"; s "0078"; s "1239"]);
    (s "M3", s "INVALID_SUFFIX", cat [s "1"; s "42"; s "017"; s "0x1F"; s "0b11"] [s "q"; s "uu"; s "lul"; s "x"; s "_"; s "gh"; s "llu8"; s "i65"]);
    (s "M4", s "MAXIMAL_MUNCH", cat [s "0xE"; s "0x1e"; s "0XAE"] [s "+1"; s "-1"; s "+x"]);
    (s "M5", s "BAD_EXPONENT", cat [s "1"; s "12"; s "0"] [s "e"; s "E"; s "e+"; s "E-"; s "ef"; s "e+f"]);
    (s "M5b", s "BAD_EXPONENT", cat [s "1.5"; s ".5"; s "1."] [s "e"; s "E"; s "e+"; s "E-"]);
    (s "M5c", s "BAD_EXPONENT", cat [s "0x1.8"; s "0X1"] [s "p"; s "P"; s "p+"; s "P-"]);
    (s "M6", s "MULTIPLE_DOTS", [s "1.2.3"; s "1.2."; s ".5.5"; s "1..2"; s "0.0.0.0"]);
    (s "M7", s "BAD_FLOAT_SUFFIX", cat [s "1.5"; s ".5"; s "5."; s "1e5"; s "0x1.8p3"] [s "q"; s "lf"; s "x"; s "_"; s "fq"] ++ cat [s "1.5"; s "1e5"] [s "ff"; s "dq"]);
    (s "M8", s "MULTIPLE_X", [s "0xx1.8p1"; s "0xX1p1"; s "0Xx1.0p-1"]);
    (s "M9", s "EMPTY_CHAR", cat [[]; s "L"] [qt ++ qt]);
    (s "M10", s "CHAR_AS_STRING", cat [[]; s "L"; s "u8"] (cat [qt] (cat [s "ab"; s "abc"; s "a" ++ bsl ++ s "n"; s "  "] [qt])));
    (s "M14", s "NO_HEX_DIGITS", [qt ++ bsl ++ s "x" ++ qt; dq ++ bsl ++ s "xg" ++ dq; dq ++ s "a" ++ bsl ++ s "x" ++ dq]);
    (s "M15", s "UNKNOWN_ESCAPE", cat [qt] (cat (map (app bsl) (singles (s "qcdghijklmopswyzAZ%( "))) [qt])) ].
(* members that must end the input / the line: unterminated literals, open comment *)
Definition malformed_open : list (str * str * list (str * str)) :=   (* (family, diagnostic, (w, rest)) *)
  [ (s "M11a", s "UNEXPECTED_EOL_CHR", [(qt, [10%N]); (qt ++ s "a", [10%N] ++ s "b"); (s "L" ++ qt ++ s "ab", [10%N])]);
    (s "M11b", s "UNEXPECTED_EOF_CHR", [(qt, []); (qt ++ s "a", []); (s "L" ++ qt ++ bsl ++ s "n", [])]);
    (s "M12", s "UNEXPECTED_EOF_STR", [(dq, []); (dq ++ s "abc", []); (s "u8" ++ dq ++ s "a" ++ [10%N] ++ s "b", []); (dq ++ s "a" ++ bsl ++ dq, [])]);
    (s "M13", s "UNEXPECTED_EOF_MC", [(s "/*", []); (s "/* a", []); (s "/* a *" ++ [10%N] ++ s "/", [])]) ].

Definition closed_sweep (fams : list (str * str * list str)) : bool :=
  forallb (fun f => forallb (fun w => forallb (lex_one_diag (snd (fst f)) w) m_rests) (snd f)) fams.
Definition open_sweep (fams : list (str * str * list (str * str))) : bool :=
  forallb (fun f => forallb (fun wr => lex_one_diag (snd (fst f)) (fst wr) (snd wr)) (snd f)) fams.
Definition malformed_sweep : bool := closed_sweep malformed && open_sweep malformed_open.
Definition malformed_failures : list (str * str * str) :=
  flat_map (fun f => let '(fam, name, ws) := f in
     flat_map (fun w => flat_map (fun r => if lex_one_diag name w r then [] else [(fam, w, r)]) m_rests) ws) malformed
  ++ flat_map (fun f => let '(fam, name, ws) := f in
     flat_map (fun wr => if lex_one_diag name (fst wr) (snd wr) then [] else [(fam, fst wr, snd wr)]) ws) malformed_open.

(* ---------------------------------------------------------------- the suffix grammar, INDEPENDENT of the tool's tables *)
(* integer suffix = [uU]? ( l | L | ll | LL | z | Z | wb | WB | i64 | I64 )? in either order (the supported extensions of the
   property text); float suffix at least f F l L d D.  The tool's own tables (Gen.LexTables) are compared with these. *)
Definition spec_us : list str := [s "u"; s "U"].
Definition spec_ws : list str := [s "l"; s "L"; s "ll"; s "LL"; s "z"; s "Z"; s "wb"; s "WB"; s "i64"; s "I64"].
Definition spec_int_suffixes : list str := [[]] ++ spec_us ++ spec_ws ++ cat spec_us spec_ws ++ cat spec_ws spec_us.
Definition spec_float_suffixes : list str := [[]; s "f"; s "F"; s "l"; s "L"; s "d"; s "D"].
